# unboxed tuples holding refcounted values, reassigned in loops and across error edges
from typing import List, Tuple


def may_fail(x: object, n: int) -> object:
    if n == 2:
        raise KeyError(x)
    return x


def rotate(xs: List[object], n: int) -> Tuple[object, int]:
    t: Tuple[object, int] = (None, 0)
    i = 0
    while i < n:
        for x in xs:
            t = (may_fail(x, i), t[1] + 1)
            if t[1] > 5:
                break
        i += 1
    return t


def swap_pairs(a: object, b: object, n: int) -> Tuple[object, object]:
    p = (a, b)
    try:
        for i in range(n):
            p = (p[1], may_fail(p[0], i))
    except KeyError:
        p = (p[0], p[0])
    return p
