# refcount.py docstring example: a is borrowed if the condition is false and owned if true
from typing import List, Optional

def f(a: object, c: bool) -> object:
    if c:
        a = [a]
    return a

def g(xs: List[object], o: Optional[object] = None) -> object:
    r: object = None
    try:
        for x in xs:
            if x is o:
                return x
            r = x
    finally:
        xs.append(r)
    return r
