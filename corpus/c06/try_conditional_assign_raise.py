# a refcounted local assigned on one arm only, raising calls on both sides of the join, several edges into one
# handler on which the local dies (once definitely assigned, once maybe): every edge needs its own dec_ref/xdec_ref
from typing import List, Optional


def check(n: int) -> None:
    if n < 0:
        raise ValueError("negative")


def pick(flag: bool, o: object, n: int) -> object:
    try:
        if flag:
            x = [o]
            check(1)
        check(n)
        return x
    except ValueError:
        return None


def pick2(flag: bool, o: object, n: int, m: int) -> object:
    y: object = None
    try:
        if flag:
            x: object = (o, o)
            check(n)
            y = x
        else:
            check(m)
        check(n + m)
        y = [x, y]
    finally:
        check(0)
    return y


def pick3(xs: List[object], o: Optional[object], n: int) -> object:
    for v in xs:
        try:
            if v is o:
                w = [v]
                check(n)
            check(n - 1)
            o = w
        except ValueError:
            continue
    return o
