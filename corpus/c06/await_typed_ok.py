# the typed variant is spilled correctly (the operand is an Unbox op, not the Register): must be accepted
async def one(x: int) -> int:
    return x

async def both(a: int, b: int) -> int:
    return await one(a) + await one(b)
