import sys
import native

class T: pass

s = native.Slot()
assert native.peek(s) == [None]
o = T()
native.put(s, o)
base = sys.getrefcount(o)
for _ in range(500):
    native.peek(s)
    native.collect(s, [])
if sys.getrefcount(o) != base:
    print("PROBLEM: refcount drift"); sys.exit(1)
native.clear(s)
native.clear_name(s)
for f, args in ((native.peek, (s,)), (native.collect, (s, [])), (native.peek_name, (s,))):
    for _ in range(100):
        try:
            r = f(*args)
        except AttributeError:
            continue
        print("PROBLEM: read of a deleted attribute returned", repr(r)); sys.exit(1)
print("ok")
