# an attribute with a class-level default that is also deletable: a read after `del` must raise AttributeError
# before the value is used (GetAttr may be non-failing only if always defined AND not deletable)
from typing import List


class Slot:
    __deletable__ = ["item", "name"]
    item: object = None
    name: str = "x"
    count: int = 0


def put(s: Slot, x: object) -> None:
    s.item = x


def clear(s: Slot) -> None:
    del s.item


def clear_name(s: Slot) -> None:
    del s.name


def wrap(x: object) -> object:
    return [x]


def peek(s: Slot) -> object:
    s.count += 1
    return wrap(s.item)


def peek_name(s: Slot) -> str:
    return s.name + "!"


def collect(s: Slot, out: List[object]) -> int:
    out.append(s.item)
    return len(out)
