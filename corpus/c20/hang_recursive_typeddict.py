from typing import (Any, Callable, Dict, Final, Generic, List, NamedTuple, Optional, Protocol, Tuple,
                    Type, TypeVar, Union, overload)
from typing_extensions import TypedDict
import dataclasses
import enum

class N6(TypedDict, total=True):
    a: Type[N2]
    b: Type[N6]

T_N2 = TypeVar('T_N2', bound=N3)

class N2(N0, N6, Generic[T_N2]):
    x: Union[int, int]
    def m(self, a: Tuple[N6, ...]) -> N6:
        return self.x
    def m(self, a: Optional[N2]) -> N1: ...

T_N4 = TypeVar('T_N4')
class N4(Generic[T_N4], N6):
    v: T_N4
    def get(self) -> 'N4[Dict[str, int]]': ...

T_N3 = TypeVar('T_N3')
class N3(Generic[T_N3], N1):
    v: T_N3
    def get(self) -> 'N3[Callable[[str], int]]': ...

N5 = List[str]

class N1(Protocol):
    class Inner(N4):
        y: N2
    @property
    def p(self) -> Union[int, str]: ...
    def p(self) -> Union[int, str]: ...

N0 = TypeVar('N0', Union[int, int], Union[int, Any])
