"""Array-like classes: special methods whose spelled-out return type is not the conventional one."""
from __future__ import annotations

from typing import Iterator, overload


class Mask:
    def __init__(self, bits: list[bool]) -> None:
        self.bits = bits

    def __len__(self) -> int:
        return len(self.bits)

    def __bool__(self) -> bool:
        return all(self.bits)

    def __invert__(self) -> Mask:
        return Mask([not b for b in self.bits])


class Vec:
    def __init__(self, items: list[float]) -> None:
        self.items = items

    def __len__(self) -> int:
        return len(self.items)

    def __iter__(self) -> Iterator[float]:
        return iter(self.items)

    def __lt__(self, other: Vec) -> Mask:
        return Mask([a < b for a, b in zip(self.items, other.items)])

    def __le__(self, other: Vec) -> Mask:
        return Mask([a <= b for a, b in zip(self.items, other.items)])

    def __gt__(self, other: Vec) -> Mask:
        return Mask([a > b for a, b in zip(self.items, other.items)])

    def __ge__(self, other: Vec) -> Mask:
        return Mask([a >= b for a, b in zip(self.items, other.items)])

    def __contains__(self, item: float) -> bool:
        return item in self.items

    def __floor__(self) -> Vec:
        return Vec([float(int(x)) for x in self.items])

    def __ceil__(self) -> Vec:
        return Vec([float(int(x) + 1) for x in self.items])

    def __trunc__(self) -> Vec:
        return Vec([float(int(x)) for x in self.items])

    def __index__(self) -> int:
        return len(self.items)

    def __length_hint__(self) -> int | None:
        return None

    def __setitem__(self, index: int, value: float) -> Vec:
        self.items[index] = value
        return self

    def __delitem__(self, index: int) -> float:
        return self.items.pop(index)

    def __format__(self, spec: str) -> str:
        return "Vec"

    @property
    def head(self) -> float | None:
        return self.items[0] if self.items else None

    @overload
    def pick(self, index: int) -> float: ...
    @overload
    def pick(self, index: slice) -> Vec: ...
    def pick(self, index):
        r = self.items[index]
        return Vec(r) if isinstance(r, list) else r

    async def gather(self, scale: float = 1.0) -> Vec:
        return Vec([x * scale for x in self.items])
