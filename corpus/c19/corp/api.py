"""Optional accelerated helpers: imported names that are re-bound at module level."""
import typing

try:
    from ._speedups import checksum
except ImportError:  # pragma: no cover - pure Python fallback
    checksum = None  # type: ignore[assignment]

try:
    import json
except ImportError:  # pragma: no cover
    json = None  # type: ignore[assignment]

from ._speedups import fold

_F = typing.TypeVar("_F")


def _traced(f: _F) -> _F:
    return f


fold = _traced(fold)


def digest(data: bytes, *, salt: int = 0) -> int:
    if checksum is not None:
        return checksum(data) ^ salt
    return (sum(data) & 0xFFFF) ^ salt


def decoder() -> typing.Optional[json.JSONDecoder]:
    return json.JSONDecoder() if json is not None else None


def width(data: bytes) -> int:
    return fold(data)
