def checksum(data: bytes) -> int:
    return sum(data) & 0xFFFF


def fold(data: bytes, width: int = 8) -> int:
    return len(data) % width
