"""Hand-written corpus package for C19: shapes that every run must cover whatever the generator draws."""
from .vec import Mask as Mask, Vec as Vec
