"""A module with __all__ that re-binds a name it imports and exports."""
from os.path import basename
import typing

__all__ = ["basename", "short"]

_F = typing.TypeVar("_F")


def _checked(f: _F) -> _F:
    return f


basename = _checked(basename)


def short(path: str) -> str:
    return basename(path)
